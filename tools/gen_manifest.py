#!/usr/bin/env python3
"""Writes MANIFEST.json from the table below (kept valid at all times; run after editing)."""
import json
from pathlib import Path

VERIF = Path(__file__).resolve().parents[1]
PROPS = [json.loads(l)['id'] for l in (VERIF / 'properties.jsonl').read_text().splitlines() if l.strip()]

E1 = ('Lean 4 kernel + axioms {propext, Classical.choice, Quot.sound}; hand-written model tied to /repo by trace '
      'validation under the deterministic scheduler on the schedules explored per run (sampled, not exhaustive); '
      'stdlib primitives (queues, executors, futures, condition variables) modelled, not verified; ')

CHECKS = {
    'C01': dict(
        technique='Lean 4 proof (inductive invariants over an LTS model of fifo_stream) + schedule-controlled trace refinement against the real code',
        text='Theorems C01_in_order / C01_own_result / C01_exactly_once / C01_complete hold for every action list of the '
             'fifo_stream model (all completion orders, interleavings, cap, conc, flags). The model is tied to the '
             'current /repo on every run: the real fifo_stream and Stream.parmap(executor=thread) run under a '
             'deterministic scheduler, their observable event traces are validated against the model by the Lean '
             'driver (validator soundness proved), and a monitor evaluates the property on each run.',
        note=E1 + "executor='process' only through the theorem (same fifo_stream code path) — OS schedule not controlled.",
        ref='§5 C01', engine='E1-detsched+E4-processes(sampled)+lean'),
    'C03': dict(
        technique='Lean 4 proof (pull machine of nested generators = terminated-stream list semantics, by a denotation invariant + fuel monotonicity/totality; counting invariant for look-ahead; list lemmas for the operator laws) + differential runs of the real Stream against the compiled model',
        text='C03_pull_eq_sem / C03_exhaust_eq_sem / C03_pull_fuel_independent: for every program over map, filter, '
             'filter_exceptions, peek, head, tail, batch, unbatch, groupby(+materialising map), accumulate, buffer, parmap, '
             'shuffle (arbitrary functions, sizes, selectors), every finite input with or without a terminal source error, '
             'every prefetch oracle and every consumption depth k, the generator-protocol model (next/takeK over feed/flush) '
             'delivers exactly the first k values of the sequential meaning semAll and then its ending. Operator laws '
             '(C03_law_*: map/filter = List.map/filter, head = take, tail = drop, batch shape, unbatch after batch = id, '
             'filter_exceptions raises exactly the first exception neither kept nor dropped, groupby shape), '
             'C03_shuffle_perm (permutation for every choice script), C03_lazy (building pulls nothing), '
             'C03_incremental(_k) (one-to-one chains pull <= handed + sum of per-operator constants). Tie on every run: '
             'random programs x inputs run on the real Stream (full, partial and repeated consumption, two simultaneously live iterations of one Stream for pipelines of single-threaded operators, instrumented source, '
             'scripted random) and compared by drv pipeline with semAll and the pull machine (outputs, ending, pull counts); '
             'a Python reference meaning is the monitor that yields replays.',
        note='Lean 4 kernel + axioms {propext, Classical.choice, Quot.sound}; hand-written model tied to /repo by differential '
             'runs on the programs/inputs generated per run (sampled); the look-ahead constants of buffer (n+2) and parmap '
             '(2*concurrency+3) are imported from C08, their thread-level behaviour is C01/C05/C08; pull counts of pipelines '
             'with buffer/parmap are OS-schedule dependent and only checked against model bounds; groupby only with the '
             'documented materialising map; peek: identity only; small buffers are kept out of early-stop contexts (F6, C05).',
        ref='§5 C03', engine='E3-differential+lean'),
    'C05': dict(
        technique='Lean 4 proof (progress + decreasing measure + invariants on LTS models of fifo_stream and Buffer) + schedule-controlled trace refinement',
        text='C05_fifo_terminates (every execution has at most 9n+9 steps) and C05_fifo_progress (some action enabled in '
             'every non-final reachable state, cap>=1, conc>=1) give: no hang for any stop/failure position and '
             'schedule; C05_fifo_first_failure / _source_failure / _raise_once / _clean give the ending. Tie and '
             'monitors (deadlock = exact state under the scheduler, leaked threads, ending) as for C01.',
        note=E1 + 'garbage-collection-triggered close is exercised as del + gc.collect(); process executors not scheduled.',
        ref='§5 C05', engine='E1-detsched+E4-processes(sampled)+lean'),
    'C08': dict(
        technique='Lean 4 proof (counting invariant of the fifo_stream / Buffer LTS models) + schedule-controlled trace refinement',
        text='C08_fifo_lookahead: pulled - handed <= cap+3 in every reachable state, for every schedule, cap, conc, n; '
             'C08_parmap_lookahead (cap = 2*conc); C08_concurrency. The bounds are attained for every capacity (C08_fifo_lookahead_attained, C08_buffer_lookahead_attained, C08_*_queue_bound_attained; the evidence counts the real runs that reach them exactly). '
             'Tie and monitors (look-ahead at every pull, concurrent calls) as for C01; real-process pools sampled (E4); '
             'async worker functions: the concurrency clause is FALSE for the code as it is (known finding F35, '
             'kernel-checked witness C08_async_workers_unlimited_witness over the async model, monitors on the real '
             'ParmapperAsync / AsyncParmapperAsync under E1 / E2); everything beyond that envelope is reported.',
        note=E1 + 'the pool\'s own concurrency limit is an assumption about the stdlib executor (start guard of the model). '
                  'PARTIAL for async worker functions (F35: limited by the hand-off capacity 2*concurrency+3 only).',
        ref='§5 C08', engine='E1-detsched+E2-vloop+E4-processes(sampled)+lean'),
    'C09': dict(
        technique='Lean 4 proof (inductive invariants, counting argument, progress + decreasing measure over an LTS model of the batching worker) + schedule-controlled full-trace replay of the real Worker code through the model',
        text='Theorems C09_wellformed / C09_single / C09_partition / C09_deadline / C09_lone_served (+ output pairing) hold for '
             'every action list of the batching-worker model (all arrival patterns incl. exception values and inputs preprocess '
             'rejects, all interleavings of collectors, consumers, competing workers and pool threads, all k, batch_size, '
             'batch_wait_time, with/without in-worker pool). Tie on every run: the real Worker.start/_start_single/_start_batch/'
             '_build_input_batches/_get_input_batch/stream and SingleLane run under the deterministic scheduler and virtual '
             'clock on generated arrival patterns; every recorded event is one model action replayed through Batch.step by '
             'the compiled Lean driver with payload comparison and a rest-state check; monitors evaluate well-formedness, '
             'partition, deadline, lone-request service and uid/result pairing on each run.',
        note=E1 + 'timing is about the integer model clock under maximal progress (virtual clock in the tie); the in-worker '
             "pool's concurrency limit is not modelled; process workers through the theorem (same Worker code) plus a few sampled real-process runs.",
        ref='§5 C09', engine='E1-detsched+lean'),
    'C11': dict(
        technique='Lean 4 proof (start: structural induction over servlet trees; stop: inductive invariants + progress + decreasing measure on a network-of-threads-and-FIFO-queues LTS compiled from the tree) + schedule-controlled replay of every queue operation of the real Server through the model + process-level sampling',
        text='C11_all_or_nothing: for every servlet tree and failure plan, __enter__ either starts every worker/helper thread or '
             'reports the first failing worker and leaves nothing running. C11_stop_terminates (measure), C11_stop_final (all '
             'threads exited, ledger empty when __exit__ returns) and C11_reenter hold for every well-formed network, pipe '
             'capacity, residual workload and schedule; C11_stop_complete_partial (no hang) holds under the decidable side '
             'condition Net.safe (all thread-servlet trees; one-worker process servlets in sequences/ensembles with any residual); '
             'the full no-hang statement is false (kernel-checked C11_F19_witness). Tie: thread-servlet trees run under the '
             'deterministic scheduler, start order/error/survivors are compared with the model function and every put/get on the '
             'servlet queues plus every join of the main thread is replayed through Lifecycle.step by the Lean driver; trees with '
             'ProcessServlets run as real processes (failing worker index x shape, abandoned streams larger than the pipe buffer, '
             'exit hang bound, re-enter), children/threads counted against the baseline.',
        note=E1 + 'ProcessServlet trees: OS schedule sampled (E4); well-formedness of the compiled network is evaluated per tree, not '
             'proved for all trees; binary ensembles/switches only; batching workers and AsyncServer.__aexit__ not modelled; F19 and its '
             'switch variant are known findings (exit hang with multi-writer pipes).',
        ref='§5 C11', engine='E1-detsched+E4-processes+lean'),
    'C15': dict(
        technique='Lean 4 proof (structural induction over a tree model of RemoteException wrap / pickle / rebuild, nested EnsembleError results included) + exact differential comparison of the model\'s executable definitions with real pickle hops',
        text='Theorems C15_roundtrip (any hop list, re-raised or forwarded at each hop: class and args unchanged, '
             'is_remote_exception, remote text contains the originally formatted traceback), C15_forward_identical '
             '(forwarding hops return the identical exception), C15_text_grows, C15_ensemble (nested exceptions preserved '
             'hereditarily with identical text), C15_defined, C15_explicit_tb, C15_no_traceback hold for every class, '
             'argument tuple, traceback text, cause chain, process name, hop list and nesting depth of the model; '
             'Legacy.repaired_eq_spec / F22_witness / C15_ensemble_pinned_partial settle object sharing under pickle\'s memo '
             '(repaired vs pinned _rebuild_exception). The model '
             'is tied to the current /repo on every run: generated exception graphs go through real '
             'pickle.loads(pickle.dumps(RemoteException(e))) hops and through the compiled Lean definitions (drv remoteexc); '
             'class, args, structure and the FULL remote text of every exception after every hop must be equal; a monitor '
             'evaluates the property statement on the real objects.',
        note='Lean 4 kernel + axioms {propext, Classical.choice, Quot.sound}; hand-written model tied to /repo by differential '
             'runs on the cases generated per run (sampled); pickle (class/args of a picklable exception survive, traceback and '
             'cause do not) and traceback.format_exception (cause chain ++ own part) are modelled, not verified, and re-checked '
             'by the exact text comparison; hops are in-process pickle round trips with the process name changed per hop; '
             'EnsembleError message text compared modulo the RemoteException(...) wrapper; Legacy/RemoteExc.lean keeps the '
             'pinned behaviour of finding F22 (shared exception object, pickle memo) with a witness.',
        ref='§5 C15', engine='E3-differential+lean'),
    'C16': dict(
        technique='Lean 4 proof (inductive invariants, decreasing measure and progress over an LTS model of async_fifo_stream; outcome of both the async and the sync model shown to be the same function of the configuration) + trace refinement and differential runs of the real async code under a virtual-time event loop / deterministic scheduler against the real sync code',
        text='C16_async_eq_spec (after every action list the async model has delivered exactly element i paired with '
             'element i\'s own outcome, i < k; complete runs deliver all n; worker entered exactly once per delivered '
             'non-rejected element), C16_async_eq_sync (any complete run of the async model and any complete run of the '
             'fifo_stream model on configurations agreeing on input, source ending, preprocessor plan, worker failure '
             'plan and return_exceptions deliver the same pairs and end the same way: both equal outcome c), '
             'C16_pre_reject_own_exception, C16_async_first_failure / _source_failure, C16_async_terminates / _progress '
             '/ _completes (the async iteration cannot hang), for every completion order, interleaving, capacity and '
             'failure plan. Tie on every run: the real async_fifo_stream and AsyncParmapperAsync run under a virtual-time '
             'asyncio loop (all completion orders of n<=4/5 calls enumerated, boundary and random cases), their event '
             'traces are validated against the model by the Lean driver and the model\'s delivered values / outcome are '
             'compared with the real outputs; the same case runs through the real fifo_stream / Stream.parmap and a '
             'monitor compares values, exception objects, order, pairing and ending; AsyncServer.stream/call and '
             'AsyncParmapper run against Server.stream/call and Stream.parmap under the deterministic scheduler '
             '(monitors).',
        note='Lean 4 kernel + axioms {propext, Classical.choice, Quot.sound}; hand-written models (AFifo, Fifo) tied to '
             '/repo on the cases explored per run (sampled + small exhaustive families, not all inputs); asyncio.Queue, '
             'Task.cancel, futures modelled, not verified; the thread-mixing variants (AsyncServer, AsyncParmapper) are '
             'covered in Lean only through the async_fifo_stream/fifo_stream theorems they delegate to, and by monitors '
             'under the scheduler; process servlets/executors not run; asyncgen GC finalisation not exercised. Requires '
             'fixes F1 and F7a (fixes/): on the unrepaired tree the check reports the violations with replays.',
        ref='§5 C16', engine='E2-vloop+E1-detsched+lean'),
    'C19': dict(
        technique='Lean 4 proof (inductive invariant with history variables over a timed LTS model of EagerBatcher.__iter__) + timed trace refinement against the real code under a virtual clock',
        text='Theorems C19_partition / _partition_done / _partition_waiting / _batch_sizes (the batches are consecutive, 1..batch_size '
             'long, and concatenate to exactly the items that arrived before the end marker), C19_short_only_if / _forever / _detect '
             '(a short batch is handed out only right after the end marker was taken, or at clock >= t_first + wait with every arrival '
             'stamped before t_first + wait already delivered; exactly at t_first + wait under zero processing time), C19_no_delay / '
             '_timeout_exact / _tick_only_when_blocked / _no_stall (no time passes between noticing and yielding; the timed get is '
             'never overslept; the batcher is never stuck), C19_waits_no_longer_than_told, C19_never_spins and C19_closed_form (for '
             'tie-free runs the batches and hand-over clocks are the greedy grouping of the take-stamped sequence) hold for every interleaving of arrivals, time and batcher/consumer steps, '
             'every batch_size >= 1, wait >= 0 and end marker (default None or custom with == semantics). The model is tied to the '
             'current /repo on every run: the real EagerBatcher is fed through a queue.Queue by a producer thread at generated dyadic '
             'virtual times (incl. deliberate ties, consumer holds, lazy time), its timed events (arrive/take/emit/resume/stop) are '
             'validated against the model by the Lean driver (validator soundness proved; the Empty time-out is the only inferred '
             'step), and a monitor evaluates the property on the event clocks of each run.',
        note=E1 + 'no-delay is proved and checked under zero processing time (virtual time advances only while all threads are blocked); '
                  'partition and short-only-if also with time passing at any moment; t_first is the clock at which the batcher '
                  'obtains the first item; multiprocessing queues as instream only through the theorem (queue assumptions); every '
                  'run self-tests that all clocks the code reads are virtual.',
        ref='§5 C19', engine='E1-detsched+lean'),
    'C10': dict(
        technique='Lean 4 proof (inductive invariants, counting argument, decreasing measure + progress over an LTS model of the repaired tee Fork.__next__ with one action per shared-state access) + schedule-controlled 1:1 trace replay of the real code at line-level preemption',
        text='C10_same_stream / C10_pull_once / C10_lookahead (pulled <= received_f + buffer_size + 2, attained) / C10_window / '
             'C10_lock_released / C10_progress / C10_measure / C10_terminates / C10_no_wedge / C10_deadlock_free / '
             'C10_fair_termination (no infinite weakly fair execution) hold for every action list of the tee '
             'model: any number of forks, any buffer_size (>= 2 for progress), any source length and both endings, preemption '
             'between any two shared-state accesses of Fork.__next__. Tie on every run: the real tee() runs under the '
             'deterministic scheduler with a scheduling point at every line of Fork.__next__; every access to the source, head '
             'cell, box next/count, source lock, box locks and window queue is observed via harness-owned objects and replayed '
             '1:1 through Tee.step by drv tee (payloads compared, rest state compared); monitors evaluate stream/ending/'
             'pull-once/look-ahead/hang/lock-released on each run. Pinned code violates C10 (F8, F9, F10; fixes/F8,F9,F10).',
        note=E1 + 'liveness = progress, bound on non-stutter steps, deadlock freedom and termination of every weakly fair execution '
             'of the model (that the runtime scheduler is weakly fair is an assumption); line-level (not bytecode-level) atomicity.',
        ref='§5 C10', engine='E1-detsched+lean'),
    'C13': dict(
        technique='Lean 4 proof (inductive counting invariant + decreasing measure over an LTS model of the manager server\'s reference counting) + differential replay of real multi-process histories through the model',
        text='C13_count_exact (server count = live client proxies + pickles in transit + proxies nested in hosted containers + '
             'server temporaries), C13_alive / C13_usable (any reference anywhere => hosted, shared memory linked, operations '
             'enabled), C13_released / C13_released_by_server_alone (no reference => entry and shared memory gone, reached by '
             'at most refs.length server-internal steps without client action), C13_exit_returns_all / C13_exit_progress hold '
             'for every action list of the model (any number of clients, any interleaving, any identifier reuse). Tie: random '
             'histories over 2-8 real processes against a real ServerProcess; after each step debug_info ids/refcounts, '
             '/dev/shm files and a call through every live proxy are compared with the references that exist (monitor) and '
             'with Core.run Refcount.step + quiesce (drv refcount).',
        note='Lean 4 kernel + axioms {propext, Classical.choice, Quot.sound}; model follows the code repaired by fixes/F16 and '
             'fixes/F21 (the check reports both defects on the pinned tree); OS schedule across processes sampled, not '
             'controlled; util.Finalize / CPython reference counting / stdlib Server.decref modelled, not verified; killed '
             'processes and fork/forkserver inheritance outside the model.',
        ref='§5 C13', engine='E4-manager-processes+lean'),
    'C14': dict(
        technique='Lean 4 proof (refinement of the direct semantics by the proxy machinery, generic in the hosted classes) + differential runs of real multi-process/multi-thread histories against local objects and the Lean heap machine',
        text='C14_refines_direct (for every semantics of the hosted classes and every history of requests from any clients: '
             'outcomes = direct outcomes in issue order, same heap, connections stay open), C14_linearizable (every '
             'interleaving of concurrent clients = a sequential run in method-execution order, replies to their own callers in order), C14_error_transparent, '
             'C14_managed_alias, C14_unhosted_remoteError. Tie: random histories of list/dict/Namespace/Value/custom-class '
             'operations with arbitrary picklable arguments, raising operations, managed() views, proxies used inside the '
             'server and concurrent batches, issued through proxies in 2-3 processes and extra threads against a real '
             'ServerProcess; every outcome and the final objects are compared with the same calls on local objects (monitor) '
             'and with proxyStep pySem (drv proxycall).',
        note='Lean 4 kernel + axioms {propext, Classical.choice, Quot.sound}; the refinement theorem is thin by design (the '
             'mechanism is thin): the weight is on the differential tie; model follows the code repaired by fixes/F22 and '
             'fixes/F23 (both reported on the pinned tree); hosted methods assumed atomic; OS schedule sampled; exception '
             'messages compared against the local call only.',
        ref='§5 C14', engine='E4-manager-processes+lean'),
    'C02': dict(
        technique='Lean 4 proof (inductive invariants of labelled-transition-system models of the servlet nodes: worker pool, ensemble '
                  'catalog, switch; trace-contract refinement lifted to all servlet trees by structural induction; kernel-checked '
                  'counterexample for reused uids) + schedule-controlled differential / trace-replay correspondence against the real '
                  'Server over generated servlet trees',
        text='Layer 1 (servlet tree) of C02. C02_tree: for EVERY servlet tree t (any depth / mix of workers, sequences, ensembles with '
             'or without fail_fast, switches; any worker functions, failure plans, batch sizes, worker counts) and every behaviour of '
             'the concrete tree (every node operational, every interleaving; members are arbitrary environments constrained only by '
             'being behaviours of the member subtrees) with pairwise distinct input uids, each message (u, y) put on the output queue '
             'answers an earlier input (u, x) with y in outs(t)(x) - computed from that request\'s own input - and no uid is answered '
             'twice; C02_tree_exactly_one: in every behaviour that has come to rest every request has exactly one answer. '
             'C02_node_worker / _ensemble / _switch: the node contracts (at most once per received message, exactly once at '
             'rest) for every action list; C02_seq(_complete) composes them; C02_uid_distinct_needed: a kernel-checked run in which a '
             'REUSED uid makes a fail-fast ensemble answer request 2 with member B\'s result for request 1 (F2\'s mechanism). Tie on '
             'every run: the real Server (thread servlets) runs generated trees with 2-6 concurrent call/stream callers under the '
             'deterministic scheduler and an adversarial id allocator; every outcome is checked against `outs` by the compiled Lean '
             'driver, the queue/call events of every node are replayed through its operational model, monitors evaluate the property '
             'on each run; a small sample with real worker processes is compared with `outs` too.',
        note=E1 + 'that the tree does come to rest (liveness) is not proved, only monitored; the ledger layer (uid minting, '
             'capacity, gather thread, timeouts) is the Ledger model of C06/C07; process servlets: OS schedule only sampled.',
        ref='§5 C02', engine='E1-detsched+E4-processes(sampled)+lean'),
    'C04': dict(
        technique='Lean 4 proof (invariants of the servlet-node transition systems incl. call-argument and batch logs; membership '
                  'characterisation of the ensemble outcome relation) + schedule-controlled differential / trace-replay correspondence '
                  'with generated failure plans over all sites',
        text='C04_isolated_tree (every tree, every behaviour of the concrete tree: the outcome of a request is an allowed outcome of its own '
             'input alone, and THE outcome when the denotation is deterministic for it), C04_deterministic_tree / C04_innocent_tree, '
             'C04_isolated(+_worker), C04_batch_exact, C04_batch_members_only (a failed batched call fails exactly the members of its '
             'batch; a request\'s outcome depends on its own input and the batch it shared only), C04_shortcircuit (denotation, all '
             'trees) + _worker/_switch/_ensemble (call / switch / members never see an exception value), C04_ensemble_rules(_failfast) '
             '(exact outcome sets), C04_original_type (the value delivered is the one produced at the failure site; class/args across '
             'RemoteException are C15\'s theorem). Tie and monitors as C02 with failure plans per site (preprocess, call, whole batch, '
             'which ensemble members, stage index): exception class/args/failure-site traceback frame, innocent request failing, call '
             'on an exception value, failed batch vs. the requests that shared it.',
        note=E1 + 'thread servlets only under the scheduler: the "traceback as text after a process boundary" clause is C15\'s '
             '(pickling model) plus a small real-process sample on every run.',
        ref='§5 C04', engine='E1-detsched+E4-processes(sampled)+lean'),
    'C17': dict(
        technique='Lean 4 proof (inductive counting invariant, timing invariant, progress + decreasing measure over an LTS model of IterableQueue/ResponsiveQueue) + schedule-controlled trace refinement against the real code',
        text='C17_exactly_once (received + queued = put as multisets in every reachable state, per round, and received = put when '
             'all consumers ended), C17_one_marker_left / C17_renew_clean / C17_renew_enabled (exactly one marker at round end; '
             'renew never raises and yields a fresh round with zero leftovers), C17_all_finish (progress + measure once all '
             'suppliers ended), C17_stop_responsive (a blocked get/put raises StopRequested within one wait interval of the later '
             'of stop request and operation start), C17_timed_call_responsive (the same for a call with its own timeout, any length), C17_late_consumer (a consumer starting after the round is over leaves queue and tokens untouched) hold for every action list of the model: all m,n>=1, queue bounds, rounds, '
             'stop moments, interleavings. Tie: the real IterableQueue runs with real threads under the deterministic scheduler; '
             'every queue/token operation is logged at its linearisation point and the trace is validated against the model by '
             'the Lean driver (validator soundness proved); token-queue sizes and queue contents are compared at every quiescent '
             'point; monitors evaluate the property on each run. Legacy/IterQueue.lean holds the kernel-checked F14 witness and '
             'serves as recogniser.',
        note=E1 + 'model follows the repaired code (fixes/F14-*.patch); usage protocol assumed (puts only before put_end, renew after '
             'all consumers ended, next round after renew); stop bound is in clock units under zero scheduling latency; process '
             'variant (multiprocessing queues/lock) covered by the theorems only.',
        ref='§5 C17', engine='E1-detsched+lean'),
    'C18': dict(
        technique='Lean 4 proof (byte-level round-trip theorems for the record framing and the Connection framing; inductive '
                  'invariants, progress and a decreasing measure over LTS models of the client/server multiplexing and of the '
                  'two crossed FIFOs) + byte-exact differential runs and event-trace replay of the real code through the models',
        text='Frame: C18_frame_first / _roundtrip / _truncated / _chunking / _roundtrip_chunked / _prefix_stable — read_record returns exactly '
             'what write_record wrote (id, encoder, payload bytes) for arbitrary payload bytes and any number of records, a cut stream never '
             'yields a phantom record, and every chunking of every byte stream is read like the concatenation. '
             'Mux: C18_mux_own_response / _handler_payload / _at_most_once / _ids_distinct / _no_unmatched / _progress / _terminates / '
             '_all_answered / _server_local, C18_stream_order / _stream_complete — for every capacity of the bounded buffers and every interleaving of client senders/receivers, server receivers/responders '
             'and handler completions over any number of connections and requesters, every future is set once, with the handler\'s '
             'response or exception to its own payload; nothing is lost; stream() preserves input order; the id-minting rule gives '
             'distinct live ids. Pipe: C18_pipe_fifo / _no_loss — each endpoint receives exactly what its peer sent, in order, for '
             'every interleaving and chunking of writes. Tie on every run: real write_record/read_record through an asyncio '
             'StreamReader under many chunkings vs the model byte-exactly; real unix-socket SocketServer+SocketClient (1-4 connections, '
             '1-16 requesters, stream(), payloads to multi-MB, generated latencies/failures) with the complete event trace replayed '
             'through Mux.step; real pipe.Server/Client traces replayed through Pipe.step; monitors evaluate the property on each run.',
        note='Lean 4 kernel + axioms {propext, Classical.choice, Quot.sound}; hand-written models tied to /repo by differential runs / '
             'trace replay on the cases generated per run (sampled); E4 (sockets, processes, FIFOs): OS schedule sampled, the '
             'quantifier over interleavings is carried by the theorems; modelled not verified: StreamReader readuntil/readexactly, '
             'pickle round trip, FIFO order of queues/sockets/FIFOs, dict, Future, CPython id() distinctness among live objects, '
             'multiprocessing.Connection framing (compared byte-exactly on samples). Assumed: the client registers a request id before '
             'its receiver processes the response to it (suspected window F17; monitored on every run, never exhibited; '
             'Legacy/MuxWindow.lean shows what would fail); pipe endpoints stay open while messages are in transit.',
        ref='§5 C18', engine='E3-differential+E2-vloop+E4-processes+lean'),
    'C12': dict(
        technique='Lean 4 proof (inductive invariant + progress + decreasing measure over an LTS model of the result pipe, collector thread, future and accessors; thread variant) + differential replay of real process/thread histories through the model',
        text='C12_resolved / C12_resolved_bound / C12_resolved_value (for every outcome, every signal at every child phase and every '
             'schedule the future is resolved within 13 steps and all seven accessors return), C12_consistent + C12_table_* (one '
             'table: value, raise, SystemExit mapping, unexpected signal = OSError everywhere + completed wait, SIGTERM), '
             'C12_order_free / _runs (every answer ever given depends on outcome and kill history only), C12_thread_*. Tie: every '
             'run executes real mpservice Process/Thread cases (outcome x kill phase x signal x accessor order, kill phases made '
             'without hooks, plus signals at random moments, in the log-flush window, in the middle of a 30 MB message and under an '
             'adversarial exit-status schedule; each in a fresh interpreter/session) and replays the observed accessor answers through the model\'s '
             'own step function (drv procoutcome); a monitor evaluates the property table on every run.',
        note='Lean 4 kernel + axioms {propext, Classical.choice, Quot.sound}; model hand-written, tied by sampled real runs; OS schedule and '
             'exact kill moment are sampled, not controlled (partial: the quantifier over interleavings is carried by the theorems only); '
             'pipe/EOF/exit-status/Future semantics modelled, not verified; requires fixes F13, F15, F28, F30 (fixes/) in /repo to pass.',
        ref='§5 C12', engine='E4-processes+lean'),
    'C20': dict(
        technique='Lean 4 proof (FIFO conservation invariant + progress + decreasing measure over an LTS model of child buffer, feeder, bounded pipe, logger thread, collector and finalizer) + differential replay of real logging runs through the model',
        text='C20_all_once_in_order / C20_all_handled_at_join / C20_prefix / C20_conservation (handled = the passing records 0..n-1, '
             'once, in order, complete when join/result return, a prefix at every moment) and C20_child_exits / _bound (for every n '
             'and pipe capacity K >= 1 some thread can always move until the child has exited and the future is resolved; at most '
             '3n+18 steps). Tie: every run executes real mpservice Process runs (0 records ... far beyond the pipe buffer, ending '
             'return/raise/sys.exit, late record from handle_exception, also as a ProcessServlet worker) with a recording handler in '
             'the parent and replays (n, pass set, capacity, seed) through the model\'s step function under a random scheduler (drv '
             'logpipe): same handled sequence, same count at join; a monitor evaluates lost/duplicate/order/hang on every run.',
        note='Lean 4 kernel + axioms {propext, Quot.sound}; model hand-written, tied by sampled real runs; OS schedule sampled, not controlled '
             '(partial: timing of result delivery vs. log flushing is quantified by the theorems only); pipe capacity abstracted to records; '
             'multiprocessing.Queue feeder semantics modelled, not verified; requires fixes F15 (+F28) and F29 (fixes/) in /repo to pass.',
        ref='§5 C20', engine='E4-processes+lean'),
}

CHECKS['C06'] = dict(
    technique='Lean 4 proof (inductive invariants over an LTS model of the server ledger: mutual exclusion, capacity, id uniqueness, conservation) + schedule-controlled trace refinement against the real Server',
    text='C06_bound (+ C06_bound_attained: reached for every capacity) (ledger size <= capacity in every reachable state, any number of callers, any interleaving with the '
         'gather/notifier threads, time-outs at any moment), C06_reject_clean, C06_backpressure_never_waits, '
         'C06_entries_in_flight + C06_slots_returned (no response dropped; backlog zero at rest). Tie: real Server under '
         'the deterministic scheduler, public backlog sampled at every scheduling step, small cases replayed through the '
         'Lean model; monitors: overshoot, slot leak, waited longer than the timeout (timed-wait accounting). Second model '
         '(Model/Wakeup, wait-for-room protocol): C06_wakeup_backlog_le_cap and the C07 wake-up theorems; every case of '
         'Server and AsyncServer is replayed through drv wakeup (ledger inserts/pops, wait/notify of the server\'s own condition).',
    note=E1 + 'time is not modelled in Lean (wait bound evaluated on the real code only); the wake-up model counts callers (interchangeable) and does not model __exit__; process servlets: OS schedule, sampled with monitors only (harness/abandon_proc.py).',
    ref='§5 C06', engine='E1-detsched+lean')
CHECKS['C07'] = dict(
    technique='Lean 4 proof (invariants of the ledger LTS with deadline expiry enabled at every step; invariant, measure and quiescence theorem of the wait-for-room LTS) + schedule-controlled trace refinement with early timer firing',
    text='C07_gather_alive (the gather thread never dies, for every position of the cancellation relative to its '
         'check/set steps), C07_outcome_final, C07_cancelled_stays (late result discarded), '
         'C07_slot_of_abandoned_returned; the unguarded model has a kernel-checked witness of the death (F5). '
         'Props/C07Wakeup.lean (a caller that gives up waiting for room never costs another caller its wake-up): '
         'C07_wakeup_under_way, C07_no_caller_left_waiting_for_room, C07_bookkeeping_terminates for the repaired protocol, '
         'kernel-checked witnesses that the pinned protocol loses the wake-up with threading.Condition and with asyncio (F44). Tie: '
         'every case is also replayed through drv wakeup (logging ledger dict, wrapped wait/notify of the server\'s condition); '
         'deadlines are virtual and fired early at random points; monitors: gather thread dead, follow-up request '
         'with unbounded deadline unanswered, exit not returning, leaked threads.',
    note=E1 + 'shutdown itself (C07 "still shuts down normally") is exercised by the scenario\'s __exit__ and proved in C11\'s model.',
    ref='§5 C07', engine='E1-detsched+lean')

NOT_YET = 'check not built yet in this round (model and tie planned in DESIGN.md §5); not claimed'


def main():
    checks = []
    for pid in PROPS:
        if pid not in CHECKS:
            continue
        c = CHECKS[pid]
        checks.append(dict(
            property_id=pid,
            quick_cmd=f'./check {pid} --tier quick',
            thorough_cmd=f'./check {pid} --tier thorough',
            evidence_file=f'evidence/{pid}.json',
            replay_cmd_template=f'./check {pid} --replay {{path}}',
            engine=c['engine'],
            level_claimed=dict(category='proof', text=c['text'], design_ref=c['ref']),
            level_note=c['note'],
            technique=c['technique'],
        ))
    m = dict(
        version=1,
        setup_cmd='cd lean && lake build',
        hooks=dict(guard='MPSERVICE_VERIF', enable='no hooks in /repo: all observation is done from the harness side '
                   '(wrappers, module-namespace shadows, replaced threading/queue/time names); checks export MPSERVICE_VERIF=1 anyway',
                   baseline_off_cmd='cd /repo && /venv/bin/python -m pytest -ra -q -p no:cacheprovider --timeout=900 --continue-on-collection-errors',
                   source_commits=[], add_only=True),
        engines=[
            dict(name='lean', path='lean/', serves_properties=sorted(CHECKS),
                 kind_free_text='Lean 4 models, theorems (axiom-audited on every run), compiled trace-validation / differential driver (drv)'),
            dict(name='E1-detsched', path='harness/detsched.py',
                 serves_properties=[p for p in sorted(CHECKS) if 'E1' in CHECKS[p]['engine']],
                 kind_free_text='deterministic cooperative scheduler for real Python threads + virtual clock (harness/cooploop.py: asyncio loops inside managed threads)'),
            dict(name='E2-vloop', path='harness/vloop.py',
                 serves_properties=[p for p in sorted(CHECKS) if 'E2' in CHECKS[p]['engine']],
                 kind_free_text='virtual-time asyncio event loop (pure-asyncio code; completion order decided by generated durations; exact hang detection)'),
            dict(name='E3-differential', path='harness/core.py',
                 serves_properties=[p for p in sorted(CHECKS) if 'E3' in CHECKS[p]['engine']],
                 kind_free_text='plain differential runs: generated cases through the real code in-process and through the compiled Lean definitions, canonicalised outputs compared'),
            dict(name='E4-processes', path='harness/core.py',
                 serves_properties=[p for p in sorted(CHECKS) if 'E4' in CHECKS[p]['engine']],
                 kind_free_text='real OS processes (own session per case, group killed afterwards, explicit hang bounds); OS schedule sampled, history replayed through the model'),
            dict(name='lean', path='lean/', serves_properties=sorted(CHECKS), kind_free_text='Lean 4 models, theorems, compiled trace-validation driver (drv)'),
            dict(name='E1-detsched', path='harness/detsched.py', serves_properties=[p for p in sorted(CHECKS)],
                 kind_free_text='deterministic cooperative scheduler for real Python threads + virtual clock'),
            dict(name='E4-manager-processes', path='harness/e4_mgr.py', serves_properties=['C13', 'C14'], kind_free_text='real ServerProcess + client processes driven through command pipes, one fresh interpreter/session per case'),
        ],
        checks=checks,
        notes='See DESIGN.md. KNOWN_FINDINGS.txt lists known: and fixed: entries.',
        not_applicable=[dict(property_id=p, reason=NOT_YET) for p in PROPS if p not in CHECKS],
    )
    (VERIF / 'MANIFEST.json').write_text(json.dumps(m, indent=1) + '\n')
    print('checks:', [c['property_id'] for c in checks], 'not claimed:', len(m['not_applicable']))


if __name__ == '__main__':
    main()
