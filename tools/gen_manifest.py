#!/usr/bin/env python3
"""Writes MANIFEST.json from the table below (kept valid at all times; run after editing)."""
import json
from pathlib import Path

VERIF = Path(__file__).resolve().parents[1]
PROPS = [json.loads(l)['id'] for l in (VERIF / 'properties.jsonl').read_text().splitlines() if l.strip()]

E1 = ('Lean 4 kernel + axioms {propext, Classical.choice, Quot.sound}; hand-written model tied to /repo by trace '
      'validation under the deterministic scheduler on the schedules explored per run (sampled, not exhaustive); '
      'stdlib primitives (queues, executors, futures, condition variables) modelled, not verified; ')

CHECKS = {
    'C01': dict(
        technique='Lean 4 proof (inductive invariants over an LTS model of fifo_stream) + schedule-controlled trace refinement against the real code',
        text='Theorems C01_in_order / C01_own_result / C01_exactly_once / C01_complete hold for every action list of the '
             'fifo_stream model (all completion orders, interleavings, cap, conc, flags). The model is tied to the '
             'current /repo on every run: the real fifo_stream and Stream.parmap(executor=thread) run under a '
             'deterministic scheduler, their observable event traces are validated against the model by the Lean '
             'driver (validator soundness proved), and a monitor evaluates the property on each run.',
        note=E1 + "executor='process' only through the theorem (same fifo_stream code path) — OS schedule not controlled.",
        ref='§5 C01', engine='E1-detsched+lean'),
    'C05': dict(
        technique='Lean 4 proof (progress + decreasing measure + invariants on LTS models of fifo_stream and Buffer) + schedule-controlled trace refinement',
        text='C05_fifo_terminates (every execution has at most 9n+9 steps) and C05_fifo_progress (some action enabled in '
             'every non-final reachable state, cap>=1, conc>=1) give: no hang for any stop/failure position and '
             'schedule; C05_fifo_first_failure / _source_failure / _raise_once / _clean give the ending. Tie and '
             'monitors (deadlock = exact state under the scheduler, leaked threads, ending) as for C01.',
        note=E1 + 'garbage-collection-triggered close is exercised as del + gc.collect(); process executors not scheduled.',
        ref='§5 C05', engine='E1-detsched+lean'),
    'C08': dict(
        technique='Lean 4 proof (counting invariant of the fifo_stream / Buffer LTS models) + schedule-controlled trace refinement',
        text='C08_fifo_lookahead: pulled - handed <= cap+3 in every reachable state, for every schedule, cap, conc, n; '
             'C08_parmap_lookahead (cap = 2*conc); C08_concurrency. The bound is attained (non-vacuity example). '
             'Tie and monitors (look-ahead at every pull, concurrent calls) as for C01.',
        note=E1 + 'the pool\'s own concurrency limit is an assumption about the stdlib executor (start guard of the model).',
        ref='§5 C08', engine='E1-detsched+lean'),
    'C10': dict(
        technique='Lean 4 proof (inductive invariants, counting argument, decreasing measure + progress over an LTS model of the repaired tee Fork.__next__ with one action per shared-state access) + schedule-controlled 1:1 trace replay of the real code at line-level preemption',
        text='C10_same_stream / C10_pull_once / C10_lookahead (pulled <= received_f + buffer_size + 2, attained) / C10_window / '
             'C10_lock_released / C10_progress / C10_measure / C10_terminates / C10_no_wedge / C10_deadlock_free / '
             'C10_fair_termination (no infinite weakly fair execution) hold for every action list of the tee '
             'model: any number of forks, any buffer_size (>= 2 for progress), any source length and both endings, preemption '
             'between any two shared-state accesses of Fork.__next__. Tie on every run: the real tee() runs under the '
             'deterministic scheduler with a scheduling point at every line of Fork.__next__; every access to the source, head '
             'cell, box next/count, source lock, box locks and window queue is observed via harness-owned objects and replayed '
             '1:1 through Tee.step by drv tee (payloads compared, rest state compared); monitors evaluate stream/ending/'
             'pull-once/look-ahead/hang/lock-released on each run. Pinned code violates C10 (F8, F9, F10; fixes/F8,F9,F10).',
        note=E1 + 'liveness = progress, bound on non-stutter steps, deadlock freedom and termination of every weakly fair execution '
             'of the model (that the runtime scheduler is weakly fair is an assumption); line-level (not bytecode-level) atomicity.',
        ref='§5 C10', engine='E1-detsched+lean'),
}

NOT_YET = 'check not built yet in this round (model and tie planned in DESIGN.md §5); not claimed'


def main():
    checks = []
    for pid in PROPS:
        if pid not in CHECKS:
            continue
        c = CHECKS[pid]
        checks.append(dict(
            property_id=pid,
            quick_cmd=f'./check {pid} --tier quick',
            thorough_cmd=f'./check {pid} --tier thorough',
            evidence_file=f'evidence/{pid}.json',
            replay_cmd_template=f'./check {pid} --replay {{path}}',
            engine=c['engine'],
            level_claimed=dict(category='proof', text=c['text'], design_ref=c['ref']),
            level_note=c['note'],
            technique=c['technique'],
        ))
    m = dict(
        version=1,
        setup_cmd='cd lean && lake build',
        hooks=dict(guard='MPSERVICE_VERIF', enable='no hooks in /repo: all observation is done from the harness side '
                   '(wrappers, module-namespace shadows, replaced threading/queue/time names); checks export MPSERVICE_VERIF=1 anyway',
                   baseline_off_cmd='cd /repo && /venv/bin/python -m pytest -ra -q -p no:cacheprovider --timeout=900 --continue-on-collection-errors',
                   source_commits=[], add_only=True),
        engines=[
            dict(name='lean', path='lean/', serves_properties=sorted(CHECKS), kind_free_text='Lean 4 models, theorems, compiled trace-validation driver (drv)'),
            dict(name='E1-detsched', path='harness/detsched.py', serves_properties=[p for p in sorted(CHECKS)],
                 kind_free_text='deterministic cooperative scheduler for real Python threads + virtual clock'),
        ],
        checks=checks,
        notes='See DESIGN.md. KNOWN_FINDINGS.txt lists known: and fixed: entries.',
        not_applicable=[dict(property_id=p, reason=NOT_YET) for p in PROPS if p not in CHECKS],
    )
    (VERIF / 'MANIFEST.json').write_text(json.dumps(m, indent=1) + '\n')
    print('checks:', [c['property_id'] for c in checks], 'not claimed:', len(m['not_applicable']))


if __name__ == '__main__':
    main()
