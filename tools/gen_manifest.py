#!/usr/bin/env python3
"""Writes MANIFEST.json from the table below (kept valid at all times; run after editing)."""
import json
from pathlib import Path

VERIF = Path(__file__).resolve().parents[1]
PROPS = [json.loads(l)['id'] for l in (VERIF / 'properties.jsonl').read_text().splitlines() if l.strip()]

E1 = ('Lean 4 kernel + axioms {propext, Classical.choice, Quot.sound}; hand-written model tied to /repo by trace '
      'validation under the deterministic scheduler on the schedules explored per run (sampled, not exhaustive); '
      'stdlib primitives (queues, executors, futures, condition variables) modelled, not verified; ')

CHECKS = {
    'C01': dict(
        technique='Lean 4 proof (inductive invariants over an LTS model of fifo_stream) + schedule-controlled trace refinement against the real code',
        text='Theorems C01_in_order / C01_own_result / C01_exactly_once / C01_complete hold for every action list of the '
             'fifo_stream model (all completion orders, interleavings, cap, conc, flags). The model is tied to the '
             'current /repo on every run: the real fifo_stream and Stream.parmap(executor=thread) run under a '
             'deterministic scheduler, their observable event traces are validated against the model by the Lean '
             'driver (validator soundness proved), and a monitor evaluates the property on each run.',
        note=E1 + "executor='process' only through the theorem (same fifo_stream code path) — OS schedule not controlled.",
        ref='§5 C01', engine='E1-detsched+lean'),
    'C05': dict(
        technique='Lean 4 proof (progress + decreasing measure + invariants on LTS models of fifo_stream and Buffer) + schedule-controlled trace refinement',
        text='C05_fifo_terminates (every execution has at most 9n+9 steps) and C05_fifo_progress (some action enabled in '
             'every non-final reachable state, cap>=1, conc>=1) give: no hang for any stop/failure position and '
             'schedule; C05_fifo_first_failure / _source_failure / _raise_once / _clean give the ending. Tie and '
             'monitors (deadlock = exact state under the scheduler, leaked threads, ending) as for C01.',
        note=E1 + 'garbage-collection-triggered close is exercised as del + gc.collect(); process executors not scheduled.',
        ref='§5 C05', engine='E1-detsched+lean'),
    'C08': dict(
        technique='Lean 4 proof (counting invariant of the fifo_stream / Buffer LTS models) + schedule-controlled trace refinement',
        text='C08_fifo_lookahead: pulled - handed <= cap+3 in every reachable state, for every schedule, cap, conc, n; '
             'C08_parmap_lookahead (cap = 2*conc); C08_concurrency. The bound is attained (non-vacuity example). '
             'Tie and monitors (look-ahead at every pull, concurrent calls) as for C01.',
        note=E1 + 'the pool\'s own concurrency limit is an assumption about the stdlib executor (start guard of the model).',
        ref='§5 C08', engine='E1-detsched+lean'),
    'C12': dict(
        technique='Lean 4 proof (inductive invariant + progress + decreasing measure over an LTS model of the result pipe, collector thread, future and accessors; thread variant) + differential replay of real process/thread histories through the model',
        text='C12_resolved / C12_resolved_bound / C12_resolved_value (for every outcome, every signal at every child phase and every '
             'schedule the future is resolved within 13 steps and all seven accessors return), C12_consistent + C12_table_* (one '
             'table: value, raise, SystemExit mapping, unexpected signal = OSError everywhere + completed wait, SIGTERM), '
             'C12_order_free / _runs (every answer ever given depends on outcome and kill history only), C12_thread_*. Tie: every '
             'run executes real mpservice Process/Thread cases (outcome x kill phase x signal x accessor order, kill phases made '
             'without hooks, plus signals at random moments, in the log-flush window, in the middle of a 30 MB message and under an '
             'adversarial exit-status schedule; each in a fresh interpreter/session) and replays the observed accessor answers through the model\'s '
             'own step function (drv procoutcome); a monitor evaluates the property table on every run.',
        note='Lean 4 kernel + axioms {propext, Classical.choice, Quot.sound}; model hand-written, tied by sampled real runs; OS schedule and '
             'exact kill moment are sampled, not controlled (partial: the quantifier over interleavings is carried by the theorems only); '
             'pipe/EOF/exit-status/Future semantics modelled, not verified; requires fixes F13, F15, F22, F24 (fixes/) in /repo to pass.',
        ref='§5 C12', engine='E4-processes+lean'),
    'C20': dict(
        technique='Lean 4 proof (FIFO conservation invariant + progress + decreasing measure over an LTS model of child buffer, feeder, bounded pipe, logger thread, collector and finalizer) + differential replay of real logging runs through the model',
        text='C20_all_once_in_order / C20_all_handled_at_join / C20_prefix / C20_conservation (handled = the passing records 0..n-1, '
             'once, in order, complete when join/result return, a prefix at every moment) and C20_child_exits / _bound (for every n '
             'and pipe capacity K >= 1 some thread can always move until the child has exited and the future is resolved; at most '
             '3n+18 steps). Tie: every run executes real mpservice Process runs (0 records ... far beyond the pipe buffer, ending '
             'return/raise/sys.exit, late record from handle_exception, also as a ProcessServlet worker) with a recording handler in '
             'the parent and replays (n, pass set, capacity, seed) through the model\'s step function under a random scheduler (drv '
             'logpipe): same handled sequence, same count at join; a monitor evaluates lost/duplicate/order/hang on every run.',
        note='Lean 4 kernel + axioms {propext, Quot.sound}; model hand-written, tied by sampled real runs; OS schedule sampled, not controlled '
             '(partial: timing of result delivery vs. log flushing is quantified by the theorems only); pipe capacity abstracted to records; '
             'multiprocessing.Queue feeder semantics modelled, not verified; requires fixes F15 (+F22) and F23 (fixes/) in /repo to pass.',
        ref='§5 C20', engine='E4-processes+lean'),
}

NOT_YET = 'check not built yet in this round (model and tie planned in DESIGN.md §5); not claimed'


def main():
    checks = []
    for pid in PROPS:
        if pid not in CHECKS:
            continue
        c = CHECKS[pid]
        checks.append(dict(
            property_id=pid,
            quick_cmd=f'./check {pid} --tier quick',
            thorough_cmd=f'./check {pid} --tier thorough',
            evidence_file=f'evidence/{pid}.json',
            replay_cmd_template=f'./check {pid} --replay {{path}}',
            engine=c['engine'],
            level_claimed=dict(category='proof', text=c['text'], design_ref=c['ref']),
            level_note=c['note'],
            technique=c['technique'],
        ))
    m = dict(
        version=1,
        setup_cmd='cd lean && lake build',
        hooks=dict(guard='MPSERVICE_VERIF', enable='no hooks in /repo: all observation is done from the harness side '
                   '(wrappers, module-namespace shadows, replaced threading/queue/time names); checks export MPSERVICE_VERIF=1 anyway',
                   baseline_off_cmd='cd /repo && /venv/bin/python -m pytest -ra -q -p no:cacheprovider --timeout=900 --continue-on-collection-errors',
                   source_commits=[], add_only=True),
        engines=[
            dict(name='lean', path='lean/', serves_properties=sorted(CHECKS), kind_free_text='Lean 4 models, theorems, compiled trace-validation driver (drv)'),
            dict(name='E1-detsched', path='harness/detsched.py', serves_properties=[p for p in sorted(CHECKS)],
                 kind_free_text='deterministic cooperative scheduler for real Python threads + virtual clock'),
        ],
        checks=checks,
        notes='See DESIGN.md. KNOWN_FINDINGS.txt lists known: and fixed: entries.',
        not_applicable=[dict(property_id=p, reason=NOT_YET) for p in PROPS if p not in CHECKS],
    )
    (VERIF / 'MANIFEST.json').write_text(json.dumps(m, indent=1) + '\n')
    print('checks:', [c['property_id'] for c in checks], 'not claimed:', len(m['not_applicable']))


if __name__ == '__main__':
    main()
