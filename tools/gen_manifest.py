#!/usr/bin/env python3
"""Writes MANIFEST.json from the table below (kept valid at all times; run after editing)."""
import json
from pathlib import Path

VERIF = Path(__file__).resolve().parents[1]
PROPS = [json.loads(l)['id'] for l in (VERIF / 'properties.jsonl').read_text().splitlines() if l.strip()]

E1 = ('Lean 4 kernel + axioms {propext, Classical.choice, Quot.sound}; hand-written model tied to /repo by trace '
      'validation under the deterministic scheduler on the schedules explored per run (sampled, not exhaustive); '
      'stdlib primitives (queues, executors, futures, condition variables) modelled, not verified; ')

CHECKS = {
    'C01': dict(
        technique='Lean 4 proof (inductive invariants over an LTS model of fifo_stream) + schedule-controlled trace refinement against the real code',
        text='Theorems C01_in_order / C01_own_result / C01_exactly_once / C01_complete hold for every action list of the '
             'fifo_stream model (all completion orders, interleavings, cap, conc, flags). The model is tied to the '
             'current /repo on every run: the real fifo_stream and Stream.parmap(executor=thread) run under a '
             'deterministic scheduler, their observable event traces are validated against the model by the Lean '
             'driver (validator soundness proved), and a monitor evaluates the property on each run.',
        note=E1 + "executor='process' only through the theorem (same fifo_stream code path) — OS schedule not controlled.",
        ref='§5 C01', engine='E1-detsched+lean'),
    'C05': dict(
        technique='Lean 4 proof (progress + decreasing measure + invariants on LTS models of fifo_stream and Buffer) + schedule-controlled trace refinement',
        text='C05_fifo_terminates (every execution has at most 9n+9 steps) and C05_fifo_progress (some action enabled in '
             'every non-final reachable state, cap>=1, conc>=1) give: no hang for any stop/failure position and '
             'schedule; C05_fifo_first_failure / _source_failure / _raise_once / _clean give the ending. Tie and '
             'monitors (deadlock = exact state under the scheduler, leaked threads, ending) as for C01.',
        note=E1 + 'garbage-collection-triggered close is exercised as del + gc.collect(); process executors not scheduled.',
        ref='§5 C05', engine='E1-detsched+lean'),
    'C08': dict(
        technique='Lean 4 proof (counting invariant of the fifo_stream / Buffer LTS models) + schedule-controlled trace refinement',
        text='C08_fifo_lookahead: pulled - handed <= cap+3 in every reachable state, for every schedule, cap, conc, n; '
             'C08_parmap_lookahead (cap = 2*conc); C08_concurrency. The bound is attained (non-vacuity example). '
             'Tie and monitors (look-ahead at every pull, concurrent calls) as for C01.',
        note=E1 + 'the pool\'s own concurrency limit is an assumption about the stdlib executor (start guard of the model).',
        ref='§5 C08', engine='E1-detsched+lean'),
    'C17': dict(
        technique='Lean 4 proof (inductive counting invariant, timing invariant, progress + decreasing measure over an LTS model of IterableQueue/ResponsiveQueue) + schedule-controlled trace refinement against the real code',
        text='C17_exactly_once (received + queued = put as multisets in every reachable state, per round, and received = put when '
             'all consumers ended), C17_one_marker_left / C17_renew_clean / C17_renew_enabled (exactly one marker at round end; '
             'renew never raises and yields a fresh round with zero leftovers), C17_all_finish (progress + measure once all '
             'suppliers ended), C17_stop_responsive (a blocked get/put raises StopRequested within one wait interval of the later '
             'of stop request and operation start) hold for every action list of the model: all m,n>=1, queue bounds, rounds, '
             'stop moments, interleavings. Tie: the real IterableQueue runs with real threads under the deterministic scheduler; '
             'every queue/token operation is logged at its linearisation point and the trace is validated against the model by '
             'the Lean driver (validator soundness proved); token-queue sizes and queue contents are compared at every quiescent '
             'point; monitors evaluate the property on each run. Legacy/IterQueue.lean holds the kernel-checked F14 witness and '
             'serves as recogniser.',
        note=E1 + 'model follows the repaired code (fixes/F14-*.patch); usage protocol assumed (puts only before put_end, renew after '
             'all consumers ended, next round after renew); stop bound is in clock units under zero scheduling latency; process '
             'variant (multiprocessing queues/lock) covered by the theorems only.',
        ref='§5 C17', engine='E1-detsched+lean'),
}

NOT_YET = 'check not built yet in this round (model and tie planned in DESIGN.md §5); not claimed'


def main():
    checks = []
    for pid in PROPS:
        if pid not in CHECKS:
            continue
        c = CHECKS[pid]
        checks.append(dict(
            property_id=pid,
            quick_cmd=f'./check {pid} --tier quick',
            thorough_cmd=f'./check {pid} --tier thorough',
            evidence_file=f'evidence/{pid}.json',
            replay_cmd_template=f'./check {pid} --replay {{path}}',
            engine=c['engine'],
            level_claimed=dict(category='proof', text=c['text'], design_ref=c['ref']),
            level_note=c['note'],
            technique=c['technique'],
        ))
    m = dict(
        version=1,
        setup_cmd='cd lean && lake build',
        hooks=dict(guard='MPSERVICE_VERIF', enable='no hooks in /repo: all observation is done from the harness side '
                   '(wrappers, module-namespace shadows, replaced threading/queue/time names); checks export MPSERVICE_VERIF=1 anyway',
                   baseline_off_cmd='cd /repo && /venv/bin/python -m pytest -ra -q -p no:cacheprovider --timeout=900 --continue-on-collection-errors',
                   source_commits=[], add_only=True),
        engines=[
            dict(name='lean', path='lean/', serves_properties=sorted(CHECKS), kind_free_text='Lean 4 models, theorems, compiled trace-validation driver (drv)'),
            dict(name='E1-detsched', path='harness/detsched.py', serves_properties=[p for p in sorted(CHECKS)],
                 kind_free_text='deterministic cooperative scheduler for real Python threads + virtual clock'),
        ],
        checks=checks,
        notes='See DESIGN.md. KNOWN_FINDINGS.txt lists known: and fixed: entries.',
        not_applicable=[dict(property_id=p, reason=NOT_YET) for p in PROPS if p not in CHECKS],
    )
    (VERIF / 'MANIFEST.json').write_text(json.dumps(m, indent=1) + '\n')
    print('checks:', [c['property_id'] for c in checks], 'not claimed:', len(m['not_applicable']))


if __name__ == '__main__':
    main()
