#!/usr/bin/env python3
"""Writes MANIFEST.json from the table below (kept valid at all times; run after editing)."""
import json
from pathlib import Path

VERIF = Path(__file__).resolve().parents[1]
PROPS = [json.loads(l)['id'] for l in (VERIF / 'properties.jsonl').read_text().splitlines() if l.strip()]

E1 = ('Lean 4 kernel + axioms {propext, Classical.choice, Quot.sound}; hand-written model tied to /repo by trace '
      'validation under the deterministic scheduler on the schedules explored per run (sampled, not exhaustive); '
      'stdlib primitives (queues, executors, futures, condition variables) modelled, not verified; ')

CHECKS = {
    'C01': dict(
        technique='Lean 4 proof (inductive invariants over an LTS model of fifo_stream) + schedule-controlled trace refinement against the real code',
        text='Theorems C01_in_order / C01_own_result / C01_exactly_once / C01_complete hold for every action list of the '
             'fifo_stream model (all completion orders, interleavings, cap, conc, flags). The model is tied to the '
             'current /repo on every run: the real fifo_stream and Stream.parmap(executor=thread) run under a '
             'deterministic scheduler, their observable event traces are validated against the model by the Lean '
             'driver (validator soundness proved), and a monitor evaluates the property on each run.',
        note=E1 + "executor='process' only through the theorem (same fifo_stream code path) — OS schedule not controlled.",
        ref='§5 C01', engine='E1-detsched+lean'),
    'C05': dict(
        technique='Lean 4 proof (progress + decreasing measure + invariants on LTS models of fifo_stream and Buffer) + schedule-controlled trace refinement',
        text='C05_fifo_terminates (every execution has at most 9n+9 steps) and C05_fifo_progress (some action enabled in '
             'every non-final reachable state, cap>=1, conc>=1) give: no hang for any stop/failure position and '
             'schedule; C05_fifo_first_failure / _source_failure / _raise_once / _clean give the ending. Tie and '
             'monitors (deadlock = exact state under the scheduler, leaked threads, ending) as for C01.',
        note=E1 + 'garbage-collection-triggered close is exercised as del + gc.collect(); process executors not scheduled.',
        ref='§5 C05', engine='E1-detsched+lean'),
    'C08': dict(
        technique='Lean 4 proof (counting invariant of the fifo_stream / Buffer LTS models) + schedule-controlled trace refinement',
        text='C08_fifo_lookahead: pulled - handed <= cap+3 in every reachable state, for every schedule, cap, conc, n; '
             'C08_parmap_lookahead (cap = 2*conc); C08_concurrency. The bound is attained (non-vacuity example). '
             'Tie and monitors (look-ahead at every pull, concurrent calls) as for C01.',
        note=E1 + 'the pool\'s own concurrency limit is an assumption about the stdlib executor (start guard of the model).',
        ref='§5 C08', engine='E1-detsched+lean'),
    'C02': dict(
        technique='Lean 4 proof (inductive invariants of labelled-transition-system models of the servlet nodes: worker pool, ensemble '
                  'catalog, switch; trace-contract refinement lifted to all servlet trees by structural induction; kernel-checked '
                  'counterexample for reused uids) + schedule-controlled differential / trace-replay correspondence against the real '
                  'Server over generated servlet trees',
        text='Layer 1 (servlet tree) of C02. C02_tree: for EVERY servlet tree t (any depth / mix of workers, sequences, ensembles with '
             'or without fail_fast, switches; any worker functions, failure plans, batch sizes, worker counts) and every behaviour of '
             'the concrete tree (every node operational, every interleaving; members are arbitrary environments constrained only by '
             'being behaviours of the member subtrees) with pairwise distinct input uids, each message (u, y) put on the output queue '
             'answers an earlier input (u, x) with y in outs(t)(x) - computed from that request\'s own input - and no uid is answered '
             'twice; C02_tree_exactly_one: in every behaviour that has come to rest every request has exactly one answer. '
             'C02_node_worker / _ensemble / _switch: the node contracts (at most once per received message, exactly once at '
             'rest) for every action list; C02_seq(_complete) composes them; C02_uid_distinct_needed: a kernel-checked run in which a '
             'REUSED uid makes a fail-fast ensemble answer request 2 with member B\'s result for request 1 (F2\'s mechanism). Tie on '
             'every run: the real Server (thread servlets) runs generated trees with 2-6 concurrent call/stream callers under the '
             'deterministic scheduler and an adversarial id allocator; every outcome is checked against `outs` by the compiled Lean '
             'driver, the queue/call events of every node are replayed through its operational model, monitors evaluate the property '
             'on each run; a small sample with real worker processes is compared with `outs` too.',
        note=E1 + 'that the tree does come to rest (liveness) is not proved, only monitored; the ledger layer (uid minting, '
             'capacity, gather thread, timeouts) is the Ledger model of C06/C07; process servlets: OS schedule only sampled.',
        ref='§5 C02', engine='E1-detsched+lean'),
    'C04': dict(
        technique='Lean 4 proof (invariants of the servlet-node transition systems incl. call-argument and batch logs; membership '
                  'characterisation of the ensemble outcome relation) + schedule-controlled differential / trace-replay correspondence '
                  'with generated failure plans over all sites',
        text='C04_isolated_tree (every tree, every behaviour of the concrete tree: the outcome of a request is an allowed outcome of its own '
             'input alone, and THE outcome when the denotation is deterministic for it), C04_deterministic_tree / C04_innocent_tree, '
             'C04_isolated(+_worker), C04_batch_exact, C04_batch_members_only (a failed batched call fails exactly the members of its '
             'batch; a request\'s outcome depends on its own input and the batch it shared only), C04_shortcircuit (denotation, all '
             'trees) + _worker/_switch/_ensemble (call / switch / members never see an exception value), C04_ensemble_rules(_failfast) '
             '(exact outcome sets), C04_original_type (the value delivered is the one produced at the failure site; class/args across '
             'RemoteException are C15\'s theorem). Tie and monitors as C02 with failure plans per site (preprocess, call, whole batch, '
             'which ensemble members, stage index): exception class/args/failure-site traceback frame, innocent request failing, call '
             'on an exception value, failed batch vs. the requests that shared it.',
        note=E1 + 'thread servlets only under the scheduler: the "traceback as text after a process boundary" clause is C15\'s '
             '(pickling model) plus a small real-process sample on every run.',
        ref='§5 C04', engine='E1-detsched+lean'),
}

NOT_YET = 'check not built yet in this round (model and tie planned in DESIGN.md §5); not claimed'


def main():
    checks = []
    for pid in PROPS:
        if pid not in CHECKS:
            continue
        c = CHECKS[pid]
        checks.append(dict(
            property_id=pid,
            quick_cmd=f'./check {pid} --tier quick',
            thorough_cmd=f'./check {pid} --tier thorough',
            evidence_file=f'evidence/{pid}.json',
            replay_cmd_template=f'./check {pid} --replay {{path}}',
            engine=c['engine'],
            level_claimed=dict(category='proof', text=c['text'], design_ref=c['ref']),
            level_note=c['note'],
            technique=c['technique'],
        ))
    m = dict(
        version=1,
        setup_cmd='cd lean && lake build',
        hooks=dict(guard='MPSERVICE_VERIF', enable='no hooks in /repo: all observation is done from the harness side '
                   '(wrappers, module-namespace shadows, replaced threading/queue/time names); checks export MPSERVICE_VERIF=1 anyway',
                   baseline_off_cmd='cd /repo && /venv/bin/python -m pytest -ra -q -p no:cacheprovider --timeout=900 --continue-on-collection-errors',
                   source_commits=[], add_only=True),
        engines=[
            dict(name='lean', path='lean/', serves_properties=sorted(CHECKS), kind_free_text='Lean 4 models, theorems, compiled trace-validation driver (drv)'),
            dict(name='E1-detsched', path='harness/detsched.py', serves_properties=[p for p in sorted(CHECKS)],
                 kind_free_text='deterministic cooperative scheduler for real Python threads + virtual clock'),
        ],
        checks=checks,
        notes='See DESIGN.md. KNOWN_FINDINGS.txt lists known: and fixed: entries.',
        not_applicable=[dict(property_id=p, reason=NOT_YET) for p in PROPS if p not in CHECKS],
    )
    (VERIF / 'MANIFEST.json').write_text(json.dumps(m, indent=1) + '\n')
    print('checks:', [c['property_id'] for c in checks], 'not claimed:', len(m['not_applicable']))


if __name__ == '__main__':
    main()
