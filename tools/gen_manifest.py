#!/usr/bin/env python3
"""Writes MANIFEST.json from the table below (kept valid at all times; run after editing)."""
import json
from pathlib import Path

VERIF = Path(__file__).resolve().parents[1]
PROPS = [json.loads(l)['id'] for l in (VERIF / 'properties.jsonl').read_text().splitlines() if l.strip()]

E1 = ('Lean 4 kernel + axioms {propext, Classical.choice, Quot.sound}; hand-written model tied to /repo by trace '
      'validation under the deterministic scheduler on the schedules explored per run (sampled, not exhaustive); '
      'stdlib primitives (queues, executors, futures, condition variables) modelled, not verified; ')

CHECKS = {
    'C01': dict(
        technique='Lean 4 proof (inductive invariants over an LTS model of fifo_stream) + schedule-controlled trace refinement against the real code',
        text='Theorems C01_in_order / C01_own_result / C01_exactly_once / C01_complete hold for every action list of the '
             'fifo_stream model (all completion orders, interleavings, cap, conc, flags). The model is tied to the '
             'current /repo on every run: the real fifo_stream and Stream.parmap(executor=thread) run under a '
             'deterministic scheduler, their observable event traces are validated against the model by the Lean '
             'driver (validator soundness proved), and a monitor evaluates the property on each run.',
        note=E1 + "executor='process' only through the theorem (same fifo_stream code path) — OS schedule not controlled.",
        ref='§5 C01', engine='E1-detsched+lean'),
    'C05': dict(
        technique='Lean 4 proof (progress + decreasing measure + invariants on LTS models of fifo_stream and Buffer) + schedule-controlled trace refinement',
        text='C05_fifo_terminates (every execution has at most 9n+9 steps) and C05_fifo_progress (some action enabled in '
             'every non-final reachable state, cap>=1, conc>=1) give: no hang for any stop/failure position and '
             'schedule; C05_fifo_first_failure / _source_failure / _raise_once / _clean give the ending. Tie and '
             'monitors (deadlock = exact state under the scheduler, leaked threads, ending) as for C01.',
        note=E1 + 'garbage-collection-triggered close is exercised as del + gc.collect(); process executors not scheduled.',
        ref='§5 C05', engine='E1-detsched+lean'),
    'C08': dict(
        technique='Lean 4 proof (counting invariant of the fifo_stream / Buffer LTS models) + schedule-controlled trace refinement',
        text='C08_fifo_lookahead: pulled - handed <= cap+3 in every reachable state, for every schedule, cap, conc, n; '
             'C08_parmap_lookahead (cap = 2*conc); C08_concurrency. The bound is attained (non-vacuity example). '
             'Tie and monitors (look-ahead at every pull, concurrent calls) as for C01.',
        note=E1 + 'the pool\'s own concurrency limit is an assumption about the stdlib executor (start guard of the model).',
        ref='§5 C08', engine='E1-detsched+lean'),
    'C18': dict(
        technique='Lean 4 proof (byte-level round-trip theorems for the record framing and the Connection framing; inductive '
                  'invariants, progress and a decreasing measure over LTS models of the client/server multiplexing and of the '
                  'two crossed FIFOs) + byte-exact differential runs and event-trace replay of the real code through the models',
        text='Frame: C18_frame_first / _roundtrip / _truncated / _chunking / _roundtrip_chunked / _prefix_stable — read_record returns exactly '
             'what write_record wrote (id, encoder, payload bytes) for arbitrary payload bytes and any number of records, a cut stream never '
             'yields a phantom record, and every chunking of every byte stream is read like the concatenation. '
             'Mux: C18_mux_own_response / _handler_payload / _at_most_once / _ids_distinct / _no_unmatched / _progress / _terminates / '
             '_all_answered / _server_local, C18_stream_order / _stream_complete — for every capacity of the bounded buffers and every interleaving of client senders/receivers, server receivers/responders '
             'and handler completions over any number of connections and requesters, every future is set once, with the handler\'s '
             'response or exception to its own payload; nothing is lost; stream() preserves input order; the id-minting rule gives '
             'distinct live ids. Pipe: C18_pipe_fifo / _no_loss — each endpoint receives exactly what its peer sent, in order, for '
             'every interleaving and chunking of writes. Tie on every run: real write_record/read_record through an asyncio '
             'StreamReader under many chunkings vs the model byte-exactly; real unix-socket SocketServer+SocketClient (1-4 connections, '
             '1-16 requesters, stream(), payloads to multi-MB, generated latencies/failures) with the complete event trace replayed '
             'through Mux.step; real pipe.Server/Client traces replayed through Pipe.step; monitors evaluate the property on each run.',
        note='Lean 4 kernel + axioms {propext, Classical.choice, Quot.sound}; hand-written models tied to /repo by differential runs / '
             'trace replay on the cases generated per run (sampled); E4 (sockets, processes, FIFOs): OS schedule sampled, the '
             'quantifier over interleavings is carried by the theorems; modelled not verified: StreamReader readuntil/readexactly, '
             'pickle round trip, FIFO order of queues/sockets/FIFOs, dict, Future, CPython id() distinctness among live objects, '
             'multiprocessing.Connection framing (compared byte-exactly on samples). Assumed: the client registers a request id before '
             'its receiver processes the response to it (suspected window F17; monitored on every run, never exhibited; '
             'Legacy/MuxWindow.lean shows what would fail); pipe endpoints stay open while messages are in transit.',
        ref='§5 C18', engine='E3-differential+E4-processes+lean'),
}

NOT_YET = 'check not built yet in this round (model and tie planned in DESIGN.md §5); not claimed'


def main():
    checks = []
    for pid in PROPS:
        if pid not in CHECKS:
            continue
        c = CHECKS[pid]
        checks.append(dict(
            property_id=pid,
            quick_cmd=f'./check {pid} --tier quick',
            thorough_cmd=f'./check {pid} --tier thorough',
            evidence_file=f'evidence/{pid}.json',
            replay_cmd_template=f'./check {pid} --replay {{path}}',
            engine=c['engine'],
            level_claimed=dict(category='proof', text=c['text'], design_ref=c['ref']),
            level_note=c['note'],
            technique=c['technique'],
        ))
    m = dict(
        version=1,
        setup_cmd='cd lean && lake build',
        hooks=dict(guard='MPSERVICE_VERIF', enable='no hooks in /repo: all observation is done from the harness side '
                   '(wrappers, module-namespace shadows, replaced threading/queue/time names); checks export MPSERVICE_VERIF=1 anyway',
                   baseline_off_cmd='cd /repo && /venv/bin/python -m pytest -ra -q -p no:cacheprovider --timeout=900 --continue-on-collection-errors',
                   source_commits=[], add_only=True),
        engines=[
            dict(name='lean', path='lean/', serves_properties=sorted(CHECKS), kind_free_text='Lean 4 models, theorems, compiled trace-validation driver (drv)'),
            dict(name='E1-detsched', path='harness/detsched.py', serves_properties=[p for p in sorted(CHECKS)],
                 kind_free_text='deterministic cooperative scheduler for real Python threads + virtual clock'),
        ],
        checks=checks,
        notes='See DESIGN.md. KNOWN_FINDINGS.txt lists known: and fixed: entries.',
        not_applicable=[dict(property_id=p, reason=NOT_YET) for p in PROPS if p not in CHECKS],
    )
    (VERIF / 'MANIFEST.json').write_text(json.dumps(m, indent=1) + '\n')
    print('checks:', [c['property_id'] for c in checks], 'not claimed:', len(m['not_applicable']))


if __name__ == '__main__':
    main()
