#!/usr/bin/env python3
"""run_seeded.py [name ...]  — detection sweep over the stored seeded changes.

For every seeded/<name>/ (or the named ones): a scratch worktree of /repo HEAD outside /repo and /verif gets
patch.diff applied, `./check <property> --seed <VERIF_SEED or 1>` runs against it (VERIF_REPO; such runs never
touch evidence/), and the outcome (exit code, VIOLATION lines, whether a concrete replay was produced) is
written to seeded/<name>/meta.json under `last_sweep`.  /repo itself is never modified.  The worktree is
removed at the end.  Exit 0 iff every swept change was reported (exit 1 + VIOLATION line)."""
import json
import os
import re
import subprocess
import sys
import time
from pathlib import Path

ROOT = Path(__file__).resolve().parents[1]
REPO = '/repo'
WT = os.environ.get('SEEDRUN_WT', '/tmp/seedrun-repo')     # several sweeps over disjoint names may run side by side


def sh(*a, **kw):
    return subprocess.run(a, capture_output=True, text=True, **kw)


def main():
    names = sys.argv[1:] or sorted(p.name for p in (ROOT / 'seeded').iterdir() if (p / 'patch.diff').exists())
    head = sh('git', '-C', REPO, 'rev-parse', 'HEAD').stdout.strip()
    sh('git', '-C', REPO, 'worktree', 'remove', '--force', WT)
    r = sh('git', '-C', REPO, 'worktree', 'add', '--detach', WT, head)
    if r.returncode:
        print(r.stderr)
        return 2
    seed = os.environ.get('VERIF_SEED', '1')
    missed = []
    try:
        for name in names:
            d = ROOT / 'seeded' / name
            meta = json.loads((d / 'meta.json').read_text())
            prop = meta['property']
            sh('git', '-C', WT, 'checkout', '--', '.')
            r = sh('git', '-C', WT, 'apply', str(d / 'patch.diff'))
            if r.returncode:
                print(f'{name}: patch does not apply to {head[:7]}: {r.stderr.strip()[:200]}')
                meta['last_sweep'] = dict(repo_head=head, error='patch does not apply')
                (d / 'meta.json').write_text(json.dumps(meta, indent=1))
                missed.append(name)
                continue
            t0 = time.time()
            env = dict(os.environ, VERIF_REPO=WT)
            try:
                r = subprocess.run([str(ROOT / 'check'), prop, '--seed', seed], capture_output=True, text=True,
                                   cwd=ROOT, env=env, timeout=3000)
                rc, out = r.returncode, r.stdout + r.stderr
            except subprocess.TimeoutExpired as e:
                rc, out = 124, (e.stdout or b'').decode(errors='replace') if isinstance(e.stdout, bytes) else (e.stdout or '')
            viol = [ln.strip() for ln in out.splitlines() if ln.startswith('VIOLATION')]
            rules = sorted({re.sub(r'^replays/[A-Z0-9]+-|-\d+\.json$', '', v.split('replay=')[1].split()[0]) for v in viol if 'replay=' in v})
            summary = [ln for ln in out.splitlines() if ln.startswith(f'[{prop}]')]
            meta['last_sweep'] = dict(repo_head=head, check=f'./check {prop} --seed {seed}', exit=rc,
                                      violation_lines=len(viol), reported_as=rules[:12],
                                      with_concrete_replay=any('no-failing-input-found' not in v for v in viol),
                                      summary=summary[-1] if summary else None, wall_s=round(time.time() - t0, 1))
            (d / 'meta.json').write_text(json.dumps(meta, indent=1))
            ok = rc == 1 and viol
            print(f'{name}: exit={rc} violations={len(viol)} {rules[:4]} {round(time.time() - t0)}s' + ('' if ok else '   <-- NOT REPORTED'))
            sys.stdout.flush()
            if not ok:
                missed.append(name)
    finally:
        sh('git', '-C', REPO, 'worktree', 'remove', '--force', WT)
    print('not reported:', missed or 'none')
    return 1 if missed else 0


if __name__ == '__main__':
    sys.exit(main())
