#!/usr/bin/env python3
"""Regenerates the table of DESIGN.md §9.5 (between the SEEDED-TABLE markers) from seeded/*/meta.json."""
import json, re
from pathlib import Path
V = Path(__file__).resolve().parents[1]
rows = []
for d in sorted((V / 'seeded').iterdir()):
    m = json.loads((d / 'meta.json').read_text())
    what = (m.get('what_it_breaks') or '').replace('\n', ' ').replace('|', '/')
    needs = (m.get('needs_to_manifest') or '').replace('\n', ' ').replace('|', '/')
    det = (m.get('detection') or '').replace('\n', ' ').replace('|', '/')
    first = 'missed at first' if re.search(r'first run: (MISSED|only|exit 2|missed)', det, re.I) else 'caught on the first run'
    rows.append(f"| {m['name']} | {m['property']} | {what[:260]} | {needs[:200]} | {first} | {det[:420]} |")
table = ("| seeded change | property | what it does | what it needs to manifest | first run | how it is detected now |\n"
         "|---|---|---|---|---|---|\n" + '\n'.join(rows) + '\n')
p = V / 'DESIGN.md'
s = p.read_text()
a, b = '<!-- SEEDED-TABLE-BEGIN -->', '<!-- SEEDED-TABLE-END -->'
if a not in s:
    s = s.rstrip() + f'\n\n{a}\n{b}\n'
i, j = s.index(a) + len(a), s.index(b)
s = s[:i] + '\n' + table + s[j:]
p.write_text(s)
n_missed = sum(1 for r in rows if 'missed at first' in r)
print(len(rows), 'seeded changes;', n_missed, 'needed a strengthening of the check')
