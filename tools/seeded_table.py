#!/usr/bin/env python3
"""Regenerates the table of DESIGN.md §9.5 (between the SEEDED-TABLE markers) from seeded/*/meta.json."""
import json, re
from pathlib import Path
V = Path(__file__).resolve().parents[1]
rows = []
for d in sorted((V / 'seeded').iterdir()):
    if not (d / 'meta.json').exists():
        continue
    m = json.loads((d / 'meta.json').read_text())
    what = (m.get('what_it_breaks') or '').replace('\n', ' ').replace('|', '/')
    needs = (m.get('needs_to_manifest') or '').replace('\n', ' ').replace('|', '/')
    det = (m.get('detection') or '').replace('\n', ' ').replace('|', '/')
    first = 'missed' if re.search(r'first run: (reported, but for the wrong reason|MISSED|only|exit 2|missed)|MISSED (by C\d\d )?on the first run', det, re.I) else 'caught'
    sw = m.get('last_sweep') or {}
    now = ('exit %s: %s' % (sw.get('exit'), ', '.join(sw.get('reported_as') or [])[:120])) if sw else '(not swept yet)'
    def cut(t, n):
        return t if len(t) <= n else t[:n - 1].rstrip() + '…'
    rows.append(f"| {m['name']} | {cut(what, 200)} | {cut(needs, 150)} | {first} | {cut(det, 260)} | {now} |")
table = ("Cells are cut; the full texts are in `seeded/<name>/meta.json`.  Last column: outcome of the last detection sweep "
         "(`tools/run_seeded.py`).\n\n"
         "| change | what it does | what it needs to manifest | first run | detection (and what was strengthened) | last sweep |\n"
         "|---|---|---|---|---|---|\n" + '\n'.join(rows) + '\n')
p = V / 'DESIGN.md'
s = p.read_text()
a, b = '<!-- SEEDED-TABLE-BEGIN -->', '<!-- SEEDED-TABLE-END -->'
if a not in s:
    s = s.rstrip() + f'\n\n{a}\n{b}\n'
i, j = s.index(a) + len(a), s.index(b)
s = s[:i] + '\n' + table + s[j:]
p.write_text(s)
n_missed = sum(1 for r in rows if '| missed |' in r)
print(len(rows), 'seeded changes;', n_missed, 'needed a strengthening of the check')
