#!/usr/bin/env python3
"""store_seeded.py <name> <property> <patch> <demo> <agent_meta.json> <confirm.json-line-file> <caught_by text>
Copies a confirmed seeded change into seeded/<name>/ with meta.json."""
import json, shutil, sys
from pathlib import Path
name, prop, patch, demo, meta, conf, caught = sys.argv[1:8]
d = Path(__file__).resolve().parents[1] / 'seeded' / name
d.mkdir(parents=True, exist_ok=True)
shutil.copy(patch, d / 'patch.diff')
shutil.copy(demo, d / 'demo.py')
m = json.loads(Path(meta).read_text())
c = None
for line in Path(conf).read_text().splitlines():
    try:
        j = json.loads(line)
    except Exception:
        continue
    if j.get('name') == name:
        c = j
out = dict(property=prop, name=name,
           what_it_breaks=m.get('summary'), needs_to_manifest=m.get('needs'),
           produced_by='independent sub-agent given only the property text and a scratch worktree of /repo',
           agent_tests_run=m.get('tests_run'), agent_demo=m.get('demo'),
           confirmed_by_me=dict(how='tools/confirm_seeded.sh in a scratch worktree of /repo HEAD: demo without the change, demo with it, named test modules with it',
                                demo_exit_without_change=c and c.get('demo_without'), demo_exit_with_change=c and c.get('demo_with'),
                                tests_with_change=c and c.get('tests'), failures_other_than_baseline_test_eager_batcher=c and c.get('failed_other_than_baseline')),
           detection=caught)
(d / 'meta.json').write_text(json.dumps(out, indent=1))
print('stored', d)
